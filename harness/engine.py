"""Generic check engine: proofs gate + correspondence + property check on the
implementation's observations.  Usage:  python -m harness.engine Cxx --tier quick"""
import sys, os, re, json, time, random, subprocess, hashlib, importlib, argparse, tempfile, shutil
from fractions import Fraction
from harness import sx

ROOT = os.path.dirname(os.path.dirname(os.path.abspath(__file__)))
REPO = os.environ.get("VERIF_REPO", "/repo")
PY = "/venv/bin/python"
DRIVER = os.path.join(ROOT, "ocaml", "driver")
NPROC = int(os.environ.get("VERIF_NPROC", "16"))
FORBIDDEN = re.compile(r"\b(Admitted|admit|Axiom|Axioms|Parameter|Parameters|Conjecture|Abort All|bypass_check|type-in-type|impredicative-set)\b|Unset Guard|Unset Positivity|Unset Universe|Admit Obligations|^\s*(Variable|Hypothesis|Variables|Hypotheses)\b")


def env_impl():
    e = dict(os.environ)
    e.update(PYTHONPATH=os.path.join(REPO, "src") + ":" + ROOT, PYTHONHASHSEED="0", MPLBACKEND="Agg",
             VERIF_REPO=REPO, OMP_NUM_THREADS="1", OPENBLAS_NUM_THREADS="1", MKL_NUM_THREADS="1",
             PYTHONDONTWRITEBYTECODE="1")
    e.pop("PHYST_FREE_ARITHMETICS", None)
    return e


# ---------------------------------------------------------------- implementation side
def _run_worker(prop, lines, tmo, outer=None):
    """run one worker over `lines`; returns list of observation texts (handles crashes)"""
    out = []
    pos = 0
    while pos < len(lines):
        timed_out = False
        try:
            p = subprocess.run([PY, "-m", "harness.worker", prop, str(tmo)], input="\n".join(lines[pos:]) + "\n",
                               capture_output=True, text=True, env=env_impl(), cwd=ROOT,
                               timeout=outer or min(max(120, 2 * tmo * (len(lines) - pos) // 4 + 60), 900))
        except subprocess.TimeoutExpired as e:      # a case that cannot be interrupted (e.g. inside numpy)
            timed_out = True
            class _P: pass
            p = _P(); p.stdout = (e.stdout.decode() if isinstance(e.stdout, bytes) else (e.stdout or "")); p.stderr = ""; p.returncode = -9
        got = [l for l in p.stdout.split("\n") if l.strip()]
        out.extend(got)
        pos += len(got)
        if pos < len(lines):
            if not got and p.returncode != 0 and "Traceback" in p.stderr and "impl" not in p.stderr:
                raise RuntimeError("worker cannot start:\n" + p.stderr[-2000:])
            out.append('"Timeout"' if timed_out else '"Crashed"')   # the case that hung / killed the interpreter
            pos += 1
    return out


def run_impl(prop, cases, tmo=20):
    """cases: python-sx values -> list of observation values (parsed)"""
    from concurrent.futures import ThreadPoolExecutor
    lines = [sx.dumps(c) for c in cases]
    if not lines: return []
    k = max(1, min(NPROC, (len(lines) + 19) // 20))
    shards = [lines[i::k] for i in range(k)]
    with ThreadPoolExecutor(k) as ex:
        res = list(ex.map(lambda s: _run_worker(prop, s, tmo), shards))
    outs = [None] * len(lines)
    for i, r in enumerate(res):
        for j, t in enumerate(r):
            outs[i + j * k] = t
    # a case that ran out of time is run again, on its own and with ten times the limit, before its "Timeout" is believed: the
    # limit is wall-clock time, and on a loaded machine (many checks at once) a slow case is not a hanging one.  At most 8 are
    # retried (a change that makes everything hang must not make the check itself run for hours); they are retried two at a time
    late = [i for i, t in enumerate(outs) if t == '"Timeout"'][:8]
    if late:
        big = min(10 * tmo, 300)
        with ThreadPoolExecutor(2) as ex:
            again = list(ex.map(lambda i: _run_worker(prop, [lines[i]], big, outer=big + 60), late))
        for i, r in zip(late, again):
            if r: outs[i] = r[0]
    return [sx.loads(t) for t in outs]


# ---------------------------------------------------------------- model side
def run_model(requests):
    from concurrent.futures import ThreadPoolExecutor
    lines = [sx.dumps(r) for r in requests]
    if not lines: return []
    k = max(1, min(NPROC, (len(lines) + 49) // 50))
    shards = [lines[i::k] for i in range(k)]

    def one(shard):
        p = subprocess.run("ulimit -s unlimited 2>/dev/null; exec " + DRIVER, shell=True, input="\n".join(shard) + "\n",
                           capture_output=True, text=True, timeout=3600)
        got = [l for l in p.stdout.split("\n") if l.strip()]
        while len(got) < len(shard): got.append('"driver-crashed"')
        return got
    with ThreadPoolExecutor(k) as ex:
        res = list(ex.map(one, shards))
    outs = [None] * len(lines)
    for i, r in enumerate(res):
        for j, t in enumerate(r):
            outs[i + j * k] = t
    # a case that ran out of time is run again, on its own and with ten times the limit, before its "Timeout" is believed: the
    # limit is wall-clock time, and on a loaded machine (many checks at once) a slow case is not a hanging one.  At most 8 are
    # retried (a change that makes everything hang must not make the check itself run for hours); they are retried two at a time
    late = [i for i, t in enumerate(outs) if t == '"Timeout"'][:8]
    if late:
        big = min(10 * tmo, 300)
        with ThreadPoolExecutor(2) as ex:
            again = list(ex.map(lambda i: _run_worker(prop, [lines[i]], big, outer=big + 60), late))
        for i, r in zip(late, again):
            if r: outs[i] = r[0]
    return [sx.loads(t) for t in outs]


# ---------------------------------------------------------------- extraction cross-check (thorough tier)
def to_coq(v):
    from fractions import Fraction
    if isinstance(v, bool): v = "T" if v else "F"
    if isinstance(v, int): return "(ZZ (%d)%%Z)" % v
    if isinstance(v, Fraction): return "(QQ (mkq (%d)%%Z %d%%positive))" % (v.numerator, v.denominator)
    if isinstance(v, str): return '(SS "%s"%%string)' % v.replace('"', '""')
    if isinstance(v, list): return "(LL [" + "; ".join(to_coq(x) for x in v) + "])"
    return to_coq(sx.enc(v))


def cross_check(prop, items, limit=30, maxlen=5000):
    """evaluate the judge INSIDE Coq (vm_compute) on small cases and compare with the extracted driver's answers"""
    cand = []
    for j in items:
        t = sx.dumps(j["case"]) + sx.dumps(j["obs"])
        if len(t) <= maxlen: cand.append((len(t), j))
    cand.sort(key=lambda t: t[0])
    step = max(1, len(cand) // limit)
    chosen = [j for _, j in cand[::step]][:limit]
    if not chosen: return dict(cases=0, agree=True, log="no small cases")
    reqs = [[prop, j["case"], j["obs"]] for j in chosen]
    outs = run_model(reqs)
    d = os.path.join(ROOT, "build", "cross"); os.makedirs(d, exist_ok=True)
    f = os.path.join(d, "Cross_%s.v" % prop)
    with open(f, "w") as fh:
        fh.write("From Physt Require Import Num Sx Dispatch.\nFrom Coq Require Import List String ZArith Bool.\nImport ListNotations.\nOpen Scope list_scope.\n")
        fh.write("Definition reqs : list sx := [\n" + ";\n".join(to_coq(sx.enc(r)) for r in reqs) + "].\n")
        fh.write("Definition outs : list sx := [\n" + ";\n".join(to_coq(sx.enc(o)) for o in outs) + "].\n")
        fh.write("Eval vm_compute in (Nat.eqb (List.length reqs) (List.length outs) && all2 sx_eqb (List.map run reqs) outs)%bool.\n")
    p = subprocess.run("ulimit -s unlimited 2>/dev/null; timeout 900 coqc -Q %s Physt %s" % (os.path.join(ROOT, "coq"), f), shell=True, capture_output=True, text=True)
    ok = p.returncode == 0 and "= true" in p.stdout
    for ext in (".vo", ".vok", ".vos", ".glob"):
        try: os.unlink(f[:-2] + ext)
        except OSError: pass
    aux = os.path.join(d, ".Cross_%s.aux" % prop)
    if os.path.exists(aux): os.unlink(aux)
    return dict(cases=len(reqs), agree=ok, log=(p.stdout + p.stderr)[-600:])


# ---------------------------------------------------------------- proofs gate
def proof_gate(prop):
    """rebuild the Coq development incrementally, re-check Props/<prop>.v, collect assumptions"""
    t0 = time.time()
    coq = os.path.join(ROOT, "coq")
    bad = []
    for d, _, fs in os.walk(coq):
        for f in fs:
            if f.endswith(".v"):
                in_section = 0
                for ln, line in enumerate(open(os.path.join(d, f)), 1):
                    code = re.sub(r"\(\*.*?\*\)", "", line)
                    if re.match(r"\s*Section\b", code): in_section += 1
                    if re.match(r"\s*End\b", code) and in_section: in_section -= 1
                    m = FORBIDDEN.search(code)
                    if m:
                        if m.group(2) and in_section: continue     # Section-local Variable/Hypothesis
                        bad.append("%s:%d: %s" % (os.path.relpath(os.path.join(d, f), ROOT), ln, line.strip()))
    r = subprocess.run(["bash", os.path.join(ROOT, "tools", "build.sh")], capture_output=True, text=True)
    build_ok = r.returncode == 0 and "build ok" in r.stdout
    info = dict(forbidden=bad, build_ok=build_ok, build_log=(r.stdout + r.stderr)[-3000:], theorems=[], assumptions={},
                obligations=0, discharged=0)
    pf = os.path.join(coq, "Props", prop + ".v")
    if os.path.exists(pf):
        src = open(pf).read()
        names = re.findall(r"^\s*(?:Theorem|Lemma|Corollary|Example)\s+(\w+)", src, re.M)
        info["theorems"] = names
        info["obligations"] = len(names)
        p = subprocess.run("ulimit -s unlimited 2>/dev/null; cd %s && timeout 900 coqc -Q . Physt Props/%s.v" % (coq, prop),
                           shell=True, capture_output=True, text=True)
        info["props_ok"] = p.returncode == 0
        info["props_log"] = (p.stdout + p.stderr)[-6000:]
        if p.returncode == 0:
            info["discharged"] = len(names)
            # Print Assumptions output: either "Closed under the global context" or "Axioms:" + list
            blocks = re.split(r"(?=Closed under the global context|Axioms:)", p.stdout)
            axioms = set()
            closed = 0
            for b in blocks:
                if b.startswith("Closed under"): closed += 1
                elif b.startswith("Axioms:"):
                    for m in re.finditer(r"^([\w.']+)\s*:", b[7:], re.M): axioms.add(m.group(1))
            info["assumptions"] = dict(closed_theorems=closed, axioms=sorted(axioms))
    else:
        info["props_ok"] = False
        info["props_log"] = "missing " + pf
    # tie by translation: theorems about the functions regenerated from /repo's current source (tools/pytrans.py)
    tf = os.path.join(coq, "Props", prop + "_tie.v")
    info["tie"] = None
    if os.path.exists(tf):
        src = open(tf).read()
        names = re.findall(r"^\s*(?:Theorem|Lemma|Corollary|Example)\s+(\w+)", src, re.M)
        info["theorems"] = info["theorems"] + names
        info["obligations"] += len(names)
        p = subprocess.run("ulimit -s unlimited 2>/dev/null; cd %s && timeout 900 coqc -Q . Physt Props/%s_tie.v" % (coq, prop),
                           shell=True, capture_output=True, text=True)
        errs = []
        for f in sorted(os.listdir(os.path.join(coq, "Gen"))) if os.path.isdir(os.path.join(coq, "Gen")) else []:
            if f.endswith(".err"): errs.append(f + ": " + open(os.path.join(coq, "Gen", f)).read().strip())
        tie_ok = p.returncode == 0
        info["tie"] = dict(ok=tie_ok, theorems=names, translator_errors=errs,
                           generated=sorted(f for f in os.listdir(os.path.join(coq, "Gen")) if f.endswith(".v")) if os.path.isdir(os.path.join(coq, "Gen")) else [])
        if tie_ok:
            info["discharged"] += len(names)
            closed = len(re.findall(r"Closed under the global context", p.stdout))
            ax = set(info["assumptions"].get("axioms", []))
            for b in re.split(r"(?=Closed under the global context|Axioms:)", p.stdout):
                if b.startswith("Axioms:"):
                    for m in re.finditer(r"^([\w.']+)\s*:", b[7:], re.M): ax.add(m.group(1))
            info["assumptions"] = dict(closed_theorems=info["assumptions"].get("closed_theorems", 0) + closed, axioms=sorted(ax))
        else:
            info["props_ok"] = False
            tail = ""
            try: tail = open(os.path.join(coq, ".tie.log")).read()[-2500:]
            except OSError: pass
            info["props_log"] = (info.get("props_log", "")[-1500:] + "\nTIE BROKEN: Props/%s_tie.v no longer checks against the functions translated from the current source of /repo.\ntranslator: %s\n%s\n%s"
                                 % (prop, "; ".join(errs) or "ok", (p.stdout + p.stderr)[-2500:], tail))
    info["wall_s"] = round(time.time() - t0, 1)
    return info


# ---------------------------------------------------------------- known findings
def load_findings(prop):
    p = os.path.join(ROOT, "known_findings.json")
    if not os.path.exists(p): return {}
    d = json.load(open(p))
    return {f["id"]: f for f in d.get("findings", []) if f["property"] == prop and f.get("status") == "open"}


# ---------------------------------------------------------------- core
class Run:
    def __init__(self, prop, tier, seed):
        self.prop = prop; self.tier = tier; self.seed = seed
        self.mod = importlib.import_module("harness.props." + prop)
        self.tmo = getattr(self.mod, "CASE_TIMEOUT", 20)

    def judge(self, cases):
        """-> list of dicts(case, obs, verdict, model, detail)"""
        obs = run_impl(self.prop, cases, self.tmo)
        reqs = [[self.prop, c, o] for c, o in zip(cases, obs)]
        ans = run_model(reqs)
        out = []
        for c, o, a in zip(cases, obs, ans):
            if isinstance(a, list) and len(a) >= 2 and isinstance(a[0], str):
                verdict, model = a[0], a[1]
                detail = a[2] if len(a) > 2 else ""
            else:
                verdict, model, detail = "model-error", a, ""
            corr = None
            if verdict in ("ok", "bad"):
                proj = getattr(self.mod, "corr_view", None)
                io = proj(c, o) if proj else o
                ce = getattr(self.mod, "corr_equal", None)
                corr = ce(c, io, model) if ce else sx.norm(io) == sx.norm(model)
            out.append(dict(case=c, obs=o, verdict=verdict, model=model, detail=detail, corr=corr))
        return out

    def classify(self, j):
        f = getattr(self.mod, "classify", None)
        if not f: return None
        try: return f(j["case"], j["obs"], j["model"], j["verdict"], j["corr"], j["detail"])
        except TypeError: return f(j["case"], j["obs"], j["model"], j["verdict"], j["corr"])

    def failing(self, j):
        """'check' = property check fails on the implementation's observation; 'corr' = model and code differ"""
        if j["verdict"] == "bad": return "check"
        if j["verdict"] == "ok" and j["corr"] is False: return "corr"
        if j["verdict"] in ("model-error",): return "corr"
        return None

    def shrink(self, j, kind, fid, budget=150):
        sh = getattr(self.mod, "shrink", None)
        if not sh: return j
        best = j; t0 = time.time()
        improved = True
        while improved and budget > 0 and time.time() - t0 < 30:
            improved = False
            cands = list(sh(best["case"]))[:40]
            if not cands: break
            budget -= len(cands)
            for jj in self.judge(cands):
                if self.failing(jj) == kind and self.classify(jj) == fid:
                    best = jj; improved = True; break
        return best


def write_replay(run, j, kind, note=""):
    os.makedirs(os.path.join(ROOT, "replays"), exist_ok=True)
    text = sx.dumps(j["case"])
    h = hashlib.sha1(text.encode()).hexdigest()[:12]
    path = os.path.join(ROOT, "replays", "%s-%s.json" % (run.prop, h))
    import platform
    try:
        import numpy; npv = numpy.__version__
    except Exception: npv = "?"
    json.dump(dict(property=run.prop, seed=run.seed, kind=kind, note=note,
                   theorem_or_corr=("check_%s on the implementation's observation" % run.prop) if kind == "check"
                   else "corr:%s:%s (model run_%s vs implementation)" % (run.prop, bucket_of(j["case"]), run.prop),
                   case=text, impl_obs=sx.dumps(j["obs"]), model_obs=sx.dumps(j["model"]), verdict=j["verdict"],
                   detail=sx.dumps(j["detail"]) if not isinstance(j["detail"], str) else j["detail"],
                   python=platform.python_version(), numpy=npv), open(path, "w"), indent=1)
    return path


def bucket_of(case):
    try: return sx.rec(case).get("bucket", "?")
    except Exception: return "?"


def main(argv=None):
    ap = argparse.ArgumentParser()
    ap.add_argument("prop"); ap.add_argument("--tier", default=os.environ.get("VERIF_TIER", "quick"))
    ap.add_argument("--replay"); ap.add_argument("--n", type=int); ap.add_argument("--no-gate", action="store_true"); ap.add_argument("--cross", action="store_true")
    a = ap.parse_args(argv)
    seed = int(os.environ.get("VERIF_SEED", "20260930"))
    t0 = time.time()
    run = Run(a.prop, a.tier, seed)
    mod = run.mod
    findings = load_findings(a.prop)
    violations = []      # (path, suffix)
    known_hit = {}
    out_lines = []

    if a.replay:
        d = json.load(open(a.replay))
        if d.get("kind") == "proof":
            gate = proof_gate(a.prop)
            okp = gate["build_ok"] and gate["props_ok"] and not gate["forbidden"]
            print("ok: proofs check" if okp else "VIOLATION property=%s replay=%s no-failing-input-found" % (a.prop, a.replay))
            return 0 if okp else 1
        subprocess.run(["bash", os.path.join(ROOT, "tools", "build.sh")], capture_output=True, text=True)
        j = run.judge([sx.loads(d["case"])])[0]
        kind = run.failing(j)
        print("impl_obs :", sx.dumps(j["obs"])[:2000]); print("model_obs:", sx.dumps(j["model"])[:2000])
        print("verdict  :", j["verdict"], "corr:", j["corr"], "detail:", j["detail"])
        if kind is None:
            print("ok: property=%s holds on the replayed case" % a.prop); return 0
        fid = run.classify(j)
        if fid in findings:
            print("KNOWN-FINDING: property=%s %s: %s" % (a.prop, fid, findings[fid]["what"])); return 0
        print("VIOLATION property=%s replay=%s%s" % (a.prop, a.replay, "" if kind == "check" else " no-failing-input-found"))
        return 1

    # 1. proofs
    if a.no_gate:
        r = subprocess.run(["bash", os.path.join(ROOT, "tools", "build.sh")], capture_output=True, text=True)
        if "build ok" not in r.stdout: print(r.stdout[-2000:])
        gate = dict(build_ok="build ok" in r.stdout, props_ok=True, forbidden=[], obligations=0, discharged=0, theorems=[], assumptions={})
    else:
        gate = proof_gate(a.prop)
    proof_broken = not (gate["build_ok"] and gate["props_ok"] and not gate["forbidden"])

    # 2. cases
    rng = random.Random(seed * 1000003 + int(hashlib.sha1(a.prop.encode()).hexdigest()[:8], 16))
    n = a.n or (mod.N_QUICK if a.tier == "quick" else mod.N_THOROUGH)
    if proof_broken: n *= 3     # the property is no longer shown: search harder for a concrete failing input
    cases = []
    cdir = os.path.join(ROOT, "corpus", a.prop)
    if os.path.isdir(cdir):
        for f in sorted(os.listdir(cdir)):
            if f.endswith(".sx"):
                for line in open(os.path.join(cdir, f)):
                    if line.strip() and not line.startswith("#"): cases.append(sx.loads(line))
    ncorpus = len(cases)
    cases.extend(mod.gen(rng, n, a.tier))

    # 3. judge in batches (keeps memory flat in the thorough tier)
    stats = dict(evaluations=0, illformed=0, verdict_ok=0, corr_same=0, nontrivial=set(), buckets={}, obs_kinds={})
    samples = []
    fails = []
    small = []
    B = 4000
    for s in range(0, len(cases), B):
        for j in run.judge(cases[s:s + B]):
            stats["evaluations"] += 1
            b = bucket_of(j["case"]); stats["buckets"][b] = stats["buckets"].get(b, 0) + 1
            ok_ = getattr(mod, "obs_kind", lambda c, o: (o[0] if isinstance(o, list) and o and isinstance(o[0], str) else "value"))(j["case"], j["obs"])
            stats["obs_kinds"][ok_] = stats["obs_kinds"].get(ok_, 0) + 1
            if j["verdict"] == "illformed": stats["illformed"] += 1
            if j["verdict"] == "ok": stats["verdict_ok"] += 1
            if j["corr"]: stats["corr_same"] += 1
            if mod.nontrivial(j["case"], j["obs"]):
                stats["nontrivial"].add(hashlib.sha1(sx.dumps(j["case"]).encode()).digest()[:8])
            if len(samples) < 3 and j["verdict"] == "ok" and stats["evaluations"] > ncorpus and mod.nontrivial(j["case"], j["obs"]):
                samples.append(dict(case=sx.dumps(j["case"])[:1500], impl_obs=sx.dumps(j["obs"])[:1500], verdict=j["verdict"]))
            if len(small) < 400 and j["verdict"] in ("ok", "bad"): small.append(j)
            k = run.failing(j)
            if k: fails.append((k, j))
            elif j["verdict"] not in ("ok", "illformed"): fails.append(("corr", j))

    # harness errors / illformed floods are failures of the machinery, reported loudly
    maxill = getattr(mod, "MAX_ILLFORMED", 0.02)
    # 4. triage
    seen = {}
    for kind, j in fails:
        fid = run.classify(j)
        if fid in findings:
            known_hit[fid] = known_hit.get(fid, 0) + 1
            continue
        key = (kind, fid, bucket_of(j["case"]))
        if key in seen: seen[key][1] += 1; continue
        seen[key] = [j, 1]
    # check-failures first; a correspondence break is reported with a failing input if any check fails too
    new = sorted(seen.items(), key=lambda kv: 0 if kv[0][0] == "check" else 1)
    have_check = any(k[0] == "check" for k, _ in new)
    for (kind, fid, b), (j, cnt) in new[:4]:
        if kind == "corr" and have_check: continue
        js = run.shrink(j, kind, fid)
        path = write_replay(run, js, kind, note="%d case(s) in bucket %s; classify=%s" % (cnt, b, fid))
        violations.append((path, "" if kind == "check" else " no-failing-input-found"))
    if proof_broken and not violations:
        os.makedirs(os.path.join(ROOT, "replays"), exist_ok=True)
        path = os.path.join(ROOT, "replays", "%s-proof.json" % a.prop)
        tie = gate.get("tie")
        what = ("Props/%s_tie.v: the theorems %s no longer check against the functions that tools/pytrans.py translates from the current source of /repo (coq/Gen/*.v)%s"
                % (a.prop, ", ".join(tie["theorems"]), "; translator: " + "; ".join(tie["translator_errors"]) if tie["translator_errors"] else "")
                if tie and not tie["ok"] else "Props/%s.v (or the development it depends on) no longer checks" % a.prop)
        json.dump(dict(property=a.prop, kind="proof", theorem_or_corr=what,
                       forbidden=gate["forbidden"], build_ok=gate["build_ok"], log=gate.get("props_log", "") + gate.get("build_log", "")),
                  open(path, "w"), indent=1)
        violations.append((path, " no-failing-input-found"))
    if stats["evaluations"] and stats["illformed"] > maxill * stats["evaluations"] and not violations:
        os.makedirs(os.path.join(ROOT, "replays"), exist_ok=True)
        path = os.path.join(ROOT, "replays", "%s-illformed.json" % a.prop)
        json.dump(dict(property=a.prop, kind="corr", theorem_or_corr="corr:%s: %d of %d cases not accepted by the model's decoder/wf guard"
                       % (a.prop, stats["illformed"], stats["evaluations"])), open(path, "w"), indent=1)
        violations.append((path, " no-failing-input-found"))

    # the same judge evaluated inside Coq (vm_compute) must agree with the extracted driver
    cross = dict(cases=0, agree=True, log="not run in this tier")
    if a.tier == "thorough" or a.cross:
        cross = cross_check(a.prop, small)
        if not cross["agree"]:
            os.makedirs(os.path.join(ROOT, "replays"), exist_ok=True)
            path = os.path.join(ROOT, "replays", "%s-extraction.json" % a.prop)
            json.dump(dict(property=a.prop, kind="corr", theorem_or_corr="corr:%s: judge_%s evaluated by vm_compute inside Coq differs from the extracted OCaml code on build/cross/Cross_%s.v" % (a.prop, a.prop, a.prop),
                           log=cross["log"]), open(path, "w"), indent=1)
            violations.append((path, " no-failing-input-found"))

    # property-specific extra comparison (C04: the translated code evaluated in binary64 against physt, bit for bit)
    extra = dict(name="none", ok=True, cases=0)
    if hasattr(mod, "extra_check") and not a.no_gate:
        try: extra = mod.extra_check(a.tier, seed)
        except Exception as e: extra = dict(name="extra_check", ok=False, cases=0, failing=[], what="extra check crashed: %r" % (e,))
        if not extra["ok"]:
            os.makedirs(os.path.join(ROOT, "replays"), exist_ok=True)
            path = os.path.join(ROOT, "replays", "%s-%s.json" % (a.prop, extra["name"]))
            json.dump(dict(property=a.prop, kind="corr", theorem_or_corr=extra.get("what", extra["name"]), failing=extra.get("failing", [])),
                      open(path, "w"), indent=1, default=str)
            violations.append((path, " no-failing-input-found"))

    for fid, cnt in sorted(known_hit.items()):
        out_lines.append("KNOWN-FINDING: property=%s %s: %s (%d cases)" % (a.prop, fid, findings[fid]["what"], cnt))
    for path, suf in violations:
        out_lines.append("VIOLATION property=%s replay=%s%s" % (a.prop, path, suf))

    # 5. evidence
    ax = gate.get("assumptions", {}).get("axioms", [])
    tb = ["Coq 8.16.1 kernel (coqc); vm_compute used for _refuted witnesses / finite sweeps; no native_compute",
          "axioms reported by Print Assumptions for Props/%s.v: %s" % (a.prop, ", ".join(ax) if ax else "none (closed under the global context)"),
          "extraction with ExtrOcamlBasic only (no further Extract directives); OCaml 4.13.1; ocaml/driver.ml (text <-> sx glue, Zarith for big-integer I/O)",
          "correspondence harness (generators, canonicalisation floats->exact rationals, observation mapping) in harness/",
          "Python %s / numpy float64 semantics on the generated exact (dyadic) families" % sys.version.split()[0]]
    tb += list(getattr(mod, "TRUSTED", []))
    ev = dict(property_id=a.prop, tier=a.tier, seed=seed, level="proof",
              coverage=dict(obligations=gate["obligations"], discharged=gate["discharged"],
                            checker_cmd="make -C coq (full .vo build) && coqc -Q coq Physt coq/Props/%s.v  [Print Assumptions under every theorem]" % a.prop,
                            trusted_base=tb, theorems=gate["theorems"], axioms=ax,
                            evaluations=stats["evaluations"], distinct_nontrivial=len(stats["nontrivial"]),
                            rule=getattr(mod, "RULE", ""), samples=samples or [dict(note="no sample")],
                            traces_validated_against_impl=stats["corr_same"], check_ok_on_impl=stats["verdict_ok"],
                            illformed_cases=stats["illformed"], corpus_cases=ncorpus,
                            input_distribution=dict(buckets=stats["buckets"], observation_kinds=stats["obs_kinds"]),
                            known_findings_hit=known_hit, forbidden_tokens=gate["forbidden"],
                            extraction_cross_check=dict(cases_evaluated_in_coq=cross["cases"], agree=cross["agree"], note=(cross["log"][-200:] if not cross["agree"] else ("vm_compute of Dispatch.run on these cases equals the extracted driver's output" if cross["cases"] else "runs in the thorough tier (and with --cross) only"))),
                            extra_comparison=dict(name=extra["name"], cases=extra["cases"], agree=extra["ok"]),
                            tie_by_translation=gate.get("tie"),
                            modelled_not_verified=getattr(mod, "MODELLED", "")),
              assumptions=tb, wall_s=round(time.time() - t0, 1), violations=len(violations))
    if not a.no_gate and not a.n:      # development runs (--no-gate / --n) never overwrite the evidence of a full run
        os.makedirs(os.path.join(ROOT, "evidence"), exist_ok=True)
        json.dump(ev, open(os.path.join(ROOT, "evidence", a.prop + ".json"), "w"), indent=1, default=str)
    for l in out_lines: print(l)
    print("%s tier=%s cases=%d check_ok=%d corr_same=%d illformed=%d nontrivial=%d theorems=%d/%d known=%s violations=%d wall=%.0fs"
          % (a.prop, a.tier, stats["evaluations"], stats["verdict_ok"], stats["corr_same"], stats["illformed"], len(stats["nontrivial"]),
             gate["discharged"], gate["obligations"], dict(known_hit), len(violations), time.time() - t0))
    return 1 if violations else 0


if __name__ == "__main__":
    sys.exit(main())
