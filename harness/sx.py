"""S-expression text <-> Python values (int, Fraction, str, list). Floats are
turned into their exact rational value; NaN/inf/None/bool into tag strings."""
from fractions import Fraction
import math

def enc(v):
    """Python value -> canonical python-sx value (int | Fraction | str | list)."""
    if v is None: return "none"
    if v is True: return "T"
    if v is False: return "F"
    if isinstance(v, (str, Fraction)): return v
    if isinstance(v, int): return v
    if isinstance(v, float):
        if math.isnan(v): return "nan"
        if math.isinf(v): return "inf" if v > 0 else "-inf"
        return Fraction(v)
    if isinstance(v, dict): return [[str(k), enc(x)] for k, x in v.items()]
    if isinstance(v, (list, tuple)): return [enc(x) for x in v]
    try:
        import numpy as np
        if isinstance(v, np.bool_): return "T" if v else "F"
        if isinstance(v, np.integer): return int(v)
        if isinstance(v, np.floating): return enc(float(v))
        if isinstance(v, np.ndarray): return enc(v.tolist())
    except ImportError:
        pass
    raise TypeError("cannot encode %r" % (type(v),))

def dumps(v, out=None):
    top = out is None
    if top: out = []
    if isinstance(v, bool) or v is None or isinstance(v, (float, dict, tuple)):
        v = enc(v)
    if isinstance(v, int): out.append(str(v))
    elif isinstance(v, Fraction): out.append("%d/%d" % (v.numerator, v.denominator))
    elif isinstance(v, str):
        assert '"' not in v and "\n" not in v, v
        out.append('"' + v + '"')
    elif isinstance(v, list):
        out.append("(")
        for i, x in enumerate(v):
            if i: out.append(" ")
            dumps(x, out)
        out.append(")")
    else:
        dumps(enc(v), out)
    if top: return "".join(out)

def loads(s):
    n = len(s); i = 0
    stack = [[]]
    while i < n:
        c = s[i]
        if c in " \n\t": i += 1
        elif c == "(": stack.append([]); i += 1
        elif c == ")":
            l = stack.pop(); stack[-1].append(l); i += 1
        elif c == '"':
            j = s.index('"', i + 1); stack[-1].append(s[i + 1:j]); i = j + 1
        else:
            j = i
            while j < n and s[j] not in " ()\n\t": j += 1
            tok = s[i:j]
            if "/" in tok:
                a, b = tok.split("/"); stack[-1].append(Fraction(int(a), int(b)))
            else: stack[-1].append(int(tok))
            i = j
    assert len(stack) == 1 and len(stack[0]) == 1, s[:200]
    return stack[0][0]

def rec(v):
    """association list -> dict"""
    return {k: x for k, x in v}

def fl(v):
    """python-sx number -> float (exact for representable rationals)"""
    if v == "nan": return float("nan")
    if v == "inf": return float("inf")
    if v == "-inf": return float("-inf")
    return float(v)

def norm(v):
    """normalise for comparison: Fraction with denominator 1 -> int"""
    if isinstance(v, Fraction) and v.denominator == 1: return int(v)
    if isinstance(v, list): return [norm(x) for x in v]
    return v
