"""Runs the implementation side of a property on cases read from stdin (one
s-expression per line) and prints one observation per line. Must be started
with PYTHONPATH=/repo/src:/verif so that the *current working tree* is used."""
import sys, os, signal, importlib, traceback, warnings
warnings.simplefilter("ignore")
os.environ.setdefault("MPLBACKEND", "Agg")
from harness import sx

class _Timeout(Exception): pass
def _alarm(sig, frm): raise _Timeout()

def main():
    prop = sys.argv[1]
    tmo = int(sys.argv[2]) if len(sys.argv) > 2 else 20
    mod = importlib.import_module("harness.props." + prop)
    signal.signal(signal.SIGALRM, _alarm)
    out = sys.stdout
    for line in sys.stdin:
        line = line.strip()
        if not line: continue
        try:
            case = sx.loads(line)
            signal.alarm(tmo)
            try:
                obs = mod.impl(case)
            finally:
                signal.alarm(0)
            text = sx.dumps(sx.enc(obs))
        except _Timeout:
            text = '"Timeout"'
        except BaseException as e:   # harness-level failure: never agrees with the model
            text = sx.dumps(["HarnessError", type(e).__name__, str(e).replace('"', "'").replace("\n", " ")[:300]])
            if os.environ.get("VERIF_DEBUG"): traceback.print_exc()
        out.write(text + "\n"); out.flush()

if __name__ == "__main__":
    import physt  # noqa: F401 -- fail early if the tree does not import
    assert os.path.realpath(physt.__file__).startswith(os.path.realpath(os.environ.get("VERIF_REPO", "/repo"))), physt.__file__
    main()
