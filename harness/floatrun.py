"""Bit-exact comparison of physt's FixedWidthBinning grid bookkeeping in binary64 with the code that tools/pytrans.py translates
from the current source, evaluated by Coq's kernel on primitive floats (coq/Tie/FloatRun.v).  Used by the C04 check."""
import math, os, random, subprocess

ROOT = os.path.dirname(os.path.dirname(os.path.abspath(__file__)))
WIDTHS = [0.1, 0.2, 0.3, 0.7, 0.05, 0.6, 1e-3, 2.5, 1e6 / 3, 1.0, 0.25, 3.0, 1e-7, 12345.678]

def fl(x):
    """Coq literal of a python float"""
    x = float(x)
    if x == 0: return "(-0x0p+0)%float" if math.copysign(1, x) < 0 else "0x0p+0%float"
    h = x.hex()
    return "(%s)%%float" % h if h.startswith("-") else "%s%%float" % h
def zl(z): return "(%d)%%Z" % int(z)
def ret_lit(r):
    if r is None: return "OINone"
    if r == (): return "OITuple0"
    return "(OIInt %s)" % zl(r)

def gen_history(rng):
    import numpy as np
    w = rng.choice(WIDTHS)
    empty = rng.random() < 0.5
    align = True if not empty else rng.random() < 0.7
    shift = 0.0
    if align and rng.random() < 0.3: shift = rng.choice([0.05, 0.5, 0.25, w / 3])
    t0 = rng.randint(-40, 40); n0 = 0 if empty else rng.randint(1, 4)
    def val():
        r = rng.random(); j = rng.randint(-25, 25)
        if r < 0.35: return float(j) * w + shift
        if r < 0.5: return rng.choice([1.7, 0.3, 2.9, -0.7, 0.15, 1.1, 0.35, 25.8, 18.0, 4.3, 2.1])
        if r < 0.65: return float(np.nextafter(float(j) * w + shift, rng.choice([-math.inf, math.inf])))
        if r < 0.75: return (t0 + rng.choice([-1, 1]) * rng.randint(30, 120)) * w
        return rng.uniform(-30, 30) * w * rng.choice([1.0, 0.999999, 1.000001])
    vals = [val() for _ in range(rng.choice([1, 2, 3, 5, 8]))]
    pair = None
    if rng.random() < 0.5:
        a, b = val(), val(); pair = (min(a, b), max(a, b))
    return dict(w=w, shift=shift, t0=t0, n0=n0, align=align, vals=vals, pair=pair)

def run_physt(h):
    from physt.binnings import FixedWidthBinning
    kw = dict(bin_width=h["w"], bin_count=h["n0"], adaptive=True, align=h["align"])
    if h["n0"] > 0: kw.update(bin_times_min=h["t0"], bin_shift=h["shift"])
    elif h["shift"] != 0: kw.update(bin_shift=h["shift"])
    b = FixedWidthBinning(**kw)
    steps = []
    for v in h["vals"]:
        r = b._force_bin_existence_single(v)
        steps.append((v, int(b._times_min), int(b._bin_count), float(b._shift), r))
    pair = None
    if h["pair"] is not None:
        import numpy as np
        r = b._force_bin_existence(np.array([h["pair"][1], h["pair"][0]]))
        pair = (int(b._times_min), int(b._bin_count), float(b._shift), r)
    return steps, pair

def case_lit(h, steps, pair):
    st = "(@mk_fw float %s %s %s %s %s false)" % (zl(h["t0"] if h["n0"] > 0 else 0), zl(h["n0"]), fl(h["w"]), fl(h["shift"]), "true" if h["align"] else "false")
    sl = "; ".join("(%s, (%s, %s, %s, %s))" % (fl(v), zl(t), zl(c), fl(s), ret_lit(r)) for v, t, c, s, r in steps)
    single = "run_single 400 %s [%s]" % (st, sl)
    if pair is None: return single
    # the state before the batch is the one after the last single step
    v, t, c, s, r = steps[-1]
    st2 = "(@mk_fw float %s %s %s %s %s false)" % (zl(t), zl(c), fl(h["w"]), fl(s), "true" if h["align"] else "false")
    return "(%s && run_pair 400 %s %s %s (%s, %s, %s, %s))" % (single, st2, fl(h["pair"][0]), fl(h["pair"][1]), zl(pair[0]), zl(pair[1]), fl(pair[2]), ret_lit(pair[3]))

def float_tie(seed, n):
    """-> dict(ok, cases, failing=[...], log)"""
    rng = random.Random(seed * 7919 + 4)
    hs = [gen_history(rng) for _ in range(n)]
    runs = [run_physt(h) for h in hs]
    d = os.path.join(ROOT, "build", "cross"); os.makedirs(d, exist_ok=True)
    f = os.path.join(d, "FloatFW.v")
    with open(f, "w") as out:
        out.write("From Physt Require Import TieBase PyFW TieFloat FloatRun.\nFrom Coq Require Import PrimFloat.\n")
        out.write("Definition results : list bool := [\n  " + ";\n  ".join(case_lit(h, s, p) for h, (s, p) in zip(hs, runs)) + "].\n")
        out.write("Eval vm_compute in results.\n")
    p = subprocess.run("ulimit -s unlimited 2>/dev/null; cd %s && timeout 600 coqc -w none -Q . Physt %s" % (os.path.join(ROOT, "coq"), f),
                       shell=True, capture_output=True, text=True)
    for ext in (".vo", ".vok", ".vos", ".glob"):
        try: os.unlink(f[:-2] + ext)
        except OSError: pass
    aux = os.path.join(d, ".FloatFW.aux")
    if os.path.exists(aux): os.unlink(aux)
    if p.returncode != 0:
        return dict(ok=False, cases=n, failing=[], log=(p.stdout + p.stderr)[-1500:], compiled=False)
    import re
    vals = re.findall(r"\b(true|false)\b", p.stdout.split(": list bool")[0])
    failing = [dict(index=i, history=hs[i], physt=[list(map(str, s)) for s in runs[i][0]], physt_pair=str(runs[i][1]))
               for i, v in enumerate(vals) if v == "false"]
    return dict(ok=(len(vals) == n and not failing), cases=n, failing=failing[:5], log="" if len(vals) == n else "unexpected output: " + p.stdout[-500:], compiled=True)
