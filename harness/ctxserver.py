"""Forced-interleaving executor for C19.  One process per value of PHYST_FREE_ARITHMETICS (the default is read when
physt.config is imported).  Reads one schedule per line (s-expression), prints one observation list per line.

Contexts: 0 is the main asyncio task; a context spawned with spawn_task is an asyncio task created by the acting context
(asyncio.create_task in a task, asyncio.run_coroutine_threadsafe from a thread); spawn_thread starts a threading.Thread.
Every action of the schedule is handed to its context and the executor waits until it is done before the next one, so the
interleaving is exactly the schedule."""
import sys, threading, asyncio, warnings
warnings.simplefilter("ignore")
import numpy as np
from harness import sx


def probe(kind):
    import physt
    from physt import h1
    h = h1([1, 2, 3], [0, 2, 4])
    try:
        if kind == "add": h + np.array([1, 1])
        elif kind == "iadd": h += np.array([1, 1])
        elif kind == "radd": [1, 1] + h
        elif kind == "sub": h - np.array([1, 1])
        elif kind == "mul": h * np.array([1, 2])
        elif kind == "imul": h *= [1, 2]
        elif kind == "div": h / np.array([1, 2])
        elif kind == "neg": h.frequencies = [-1, 2]
        elif kind == "negnan": h.frequencies = [float("nan"), -1.0]
        elif kind == "negnd":
            from physt import h2
            g = h2([1, 2, 3], [1, 2, 3], [[0, 2, 4], [0, 2, 4]]); g.frequencies = [[0, -2], [float("nan"), 1]]
        elif kind == "negmul": h * (-1)
        elif kind == "negsub": h - 5 * h
        else: raise KeyError(kind)
        return True
    except (TypeError, ValueError):
        return False


class Actor:
    def __init__(self): self.cms = []
    def do(self, a):
        from physt.config import config
        k = a[0]
        if k == "set": config.free_arithmetics = (a[1] == "T"); return "-"
        if k == "enter":
            cm = config.enable_free_arithmetics(a[1] == "T"); cm.__enter__(); self.cms.append(cm); return "-"
        if k == "exit":
            self.cms.pop().__exit__(None, None, None); return "-"
        if k == "raise":          # an exception propagating out of every open with-block of this context
            e = KeyError("boom")
            while self.cms:
                self.cms.pop().__exit__(KeyError, e, None)
            return "-"
        if k == "read": return [bool(config.free_arithmetics), probe(a[1])]
        raise KeyError(k)


def run_schedule(schedule):
    obs = []
    async def main():
        loop = asyncio.get_running_loop()
        kind = {0: "task"}; queues = {}; done = {}; go = {}; cmd = {}; results = {}
        main_actor = Actor()
        async def task_worker(c):
            ac = Actor()
            while True:
                a = await queues[c].get()
                if a is None: return
                try: results[c] = await perform(c, ac, a)
                except Exception as e: results[c] = "error:" + type(e).__name__
                done[c].set()
        def thread_worker(c):
            ac = Actor()
            while True:
                go[c].wait(); go[c].clear()
                a = cmd.pop(c)
                if a is None: return
                try: results[c] = perform_sync(c, ac, a)
                except Exception as e: results[c] = "error:" + type(e).__name__
                done[c].set()
        def start_thread(ch):
            kind[ch] = "thread"; go[ch] = threading.Event(); done[ch] = threading.Event()
            threading.Thread(target=thread_worker, args=(ch,), daemon=True).start()
        async def perform(c, ac, a):          # acting context is an asyncio task
            if a[0] == "spawn_task":
                ch = a[1]; kind[ch] = "task"; queues[ch] = asyncio.Queue(); done[ch] = asyncio.Event()
                asyncio.create_task(task_worker(ch)); return "-"
            if a[0] == "spawn_thread": start_thread(a[1]); return "-"
            return ac.do(a)
        def perform_sync(c, ac, a):           # acting context is a thread
            if a[0] == "spawn_task":
                ch = a[1]
                async def boot():             # runs as a task whose context is a copy of the calling thread's context
                    await task_worker(ch)
                async def prep():
                    kind[ch] = "task"; queues[ch] = asyncio.Queue(); done[ch] = asyncio.Event()
                asyncio.run_coroutine_threadsafe(prep(), loop).result()
                asyncio.run_coroutine_threadsafe(boot(), loop); return "-"
            if a[0] == "spawn_thread": start_thread(a[1]); return "-"
            return ac.do(a)
        for (c, a) in schedule:
            if c == 0: r = await perform(0, main_actor, a)
            elif kind[c] == "task":
                await queues[c].put(a); await done[c].wait(); done[c].clear(); r = results[c]
            else:
                cmd[c] = a; go[c].set()
                await loop.run_in_executor(None, done[c].wait); done[c].clear(); r = results[c]
            obs.append(r)
        for c, k in kind.items():
            if c == 0: continue
            if k == "task": await queues[c].put(None)
            else: cmd[c] = None; go[c].set()
        await asyncio.sleep(0)
    asyncio.run(main())
    return obs


def main():
    for line in sys.stdin:
        line = line.strip()
        if not line: continue
        sched = sx.loads(line)
        try: out = run_schedule([(c, a) for c, a in sched])
        except Exception as e: out = "error:" + type(e).__name__ + ":" + str(e)[:80]
        sys.stdout.write(sx.dumps(sx.enc(out)) + "\n"); sys.stdout.flush()


if __name__ == "__main__":
    main()
